#!/venv/bin/python
"""seedtest.py <seed-id> <property> [--src DIR] [--no-verify]

Keeps a seeded change under /verif/seeded/<seed-id>/ (patch.diff, demo.py, meta.json) after confirming,
in a scratch worktree outside /repo and /verif, that (a) the existing test-suite still passes with the
change, (b) the demonstration fails with the change and passes without it; then applies the patch to
/repo, runs the property's quick check (must report a VIOLATION), and reverts /repo straight away.
The outcome of every step is recorded in meta.json."""
from __future__ import annotations
import argparse
import json
import os
import shutil
import subprocess
import sys
import tempfile

VERIF = os.path.dirname(os.path.dirname(os.path.abspath(__file__)))
PY = "/venv/bin/python"


def sh(cmd, cwd=None, timeout=1800, env=None):
    p = subprocess.run(cmd, cwd=cwd, stdout=subprocess.PIPE, stderr=subprocess.STDOUT, timeout=timeout, env=env)
    return p.returncode, p.stdout.decode(errors="replace")


def main():
    ap = argparse.ArgumentParser()
    ap.add_argument("seed_id")
    ap.add_argument("prop")
    ap.add_argument("--src", default=None)
    ap.add_argument("--no-verify", action="store_true")
    ap.add_argument("--scratch", action="store_true",
                    help="preliminary run: patch a scratch worktree and point the check at it with FCV_REPO "
                         "(does not touch /repo, does not update meta.json's check_results)")
    ap.add_argument("--verify-only", action="store_true", help="confirm the seed in a scratch worktree only; do not touch /repo")
    ap.add_argument("--no-clean-rerun", action="store_true",
                    help="do not re-run the check on the reverted tree afterwards (the caller restores the evidence "
                         "with one clean run of all checks at the end of a batch)")
    ap.add_argument("--tier", default="quick")
    ap.add_argument("--extra-props", default="", help="comma separated: also run these properties' checks")
    args = ap.parse_args()
    dst = os.path.join(VERIF, "seeded", args.seed_id)
    if args.src:
        os.makedirs(dst, exist_ok=True)
        for f in ("patch.diff", "demo.py", "meta.json"):
            shutil.copy(os.path.join(args.src, f), os.path.join(dst, f))
    meta_p = os.path.join(dst, "meta.json")
    meta = json.load(open(meta_p))
    patch = os.path.join(dst, "patch.diff")
    demo = os.path.join(dst, "demo.py")
    if not args.no_verify:
        wt = tempfile.mkdtemp(prefix="fcv_seedverify_")
        os.rmdir(wt)
        try:
            rc, out = sh(["git", "-C", "/repo", "worktree", "add", "-q", "--detach", wt, "HEAD"])
            assert rc == 0, out
            env = dict(os.environ, PYTHONPATH=wt)
            rc0, out0 = sh([PY, demo], cwd=wt, env=env)
            rc, out = sh(["git", "-C", wt, "apply", patch])
            assert rc == 0, out
            rc1, out1 = sh([PY, demo], cwd=wt, env=env)
            rct, outt = sh([PY, "-m", "pytest", "-q", "-p", "no:cacheprovider", "--timeout=900",
                            "--deselect", "test/test_examples.py::test_api_examples"], cwd=wt)
            tail = [l for l in outt.strip().splitlines() if "passed" in l or "failed" in l][-1:]
            meta["verified"] = {"demo_unchanged_exit": rc0, "demo_changed_exit": rc1,
                                "tests_with_change": tail[0] if tail else outt[-200:],
                                "ok": rc0 == 0 and rc1 != 0 and rct == 0}
        finally:
            sh(["git", "-C", "/repo", "worktree", "remove", "--force", wt])
    if args.verify_only:
        json.dump(meta, open(meta_p, "w"), indent=1)
        print(json.dumps({"seed": args.seed_id, "verified": meta.get("verified")}))
        return 0
    if args.scratch:
        wt = tempfile.mkdtemp(prefix="fcv_seedscratch_")
        os.rmdir(wt)
        try:
            rc, out = sh(["git", "-C", "/repo", "worktree", "add", "-q", "--detach", wt, "HEAD"])
            assert rc == 0, out
            rc, out = sh(["git", "-C", wt, "apply", patch])
            assert rc == 0, out
            env = dict(os.environ, FCV_REPO=wt)
            for prop in [args.prop] + [p for p in args.extra_props.split(",") if p]:
                rc, out = sh([PY, os.path.join(VERIF, "harness", "vcheck.py"), prop, "--tier", args.tier], cwd=VERIF, env=env)
                vl = [l for l in out.splitlines() if l.startswith("VIOLATION")]
                print(json.dumps({"seed": args.seed_id, "prop": prop, "exit": rc, "line": vl[0] if vl else None,
                                  "summary": out.strip().splitlines()[-1] if out.strip() else ""}))
        finally:
            sh(["git", "-C", "/repo", "worktree", "remove", "--force", wt])
        return 0
    # run the registered check(s) against /repo with the patch applied, then undo straight away
    results = {}
    rc, out = sh(["git", "-C", "/repo", "status", "--porcelain"])
    assert out.strip() == "", "refusing: /repo has local modifications"
    rc, out = sh(["git", "-C", "/repo", "apply", patch])
    assert rc == 0, out
    try:
        for prop in [args.prop] + [p for p in args.extra_props.split(",") if p]:
            rc, out = sh([PY, os.path.join(VERIF, "harness", "vcheck.py"), prop, "--tier", args.tier], cwd=VERIF)
            vl = [l for l in out.splitlines() if l.startswith("VIOLATION")]
            replay = None
            if vl and "replay=" in vl[0]:
                rp = vl[0].split("replay=")[1].split()[0]
                try:
                    replay = json.load(open(rp))
                    replay = {k: replay[k] for k in replay if k in ("kind", "what", "case", "impl", "spec", "broken")}
                except Exception:  # noqa: BLE001
                    replay = None
            results[prop] = {"exit": rc, "violation_line": vl[0] if vl else None,
                             "summary": out.strip().splitlines()[-1] if out.strip() else "",
                             "replay_excerpt": json.loads(json.dumps(replay, default=str)[:1500]) if False else
                             (json.dumps(replay, default=str)[:1200] if replay else None)}
    finally:
        sh(["git", "-C", "/repo", "checkout", "--", "."])
    # restore evidence of the clean tree for the checks we just ran (evidence must describe the unchanged tree)
    for prop in results:
        if args.no_clean_rerun:
            continue
        rc, out = sh([PY, os.path.join(VERIF, "harness", "vcheck.py"), prop, "--tier", "quick"], cwd=VERIF)
        results[prop]["clean_rerun_exit"] = rc
    meta["check_results"] = results
    meta["caught"] = bool(results[args.prop]["violation_line"])
    meta["ran"] = f"harness/seedtest.py {args.seed_id} {args.prop} (patch applied to /repo, vcheck {args.tier}, reverted)"
    json.dump(meta, open(meta_p, "w"), indent=1)
    print(json.dumps({"seed": args.seed_id, "verified": meta.get("verified"), "caught": meta["caught"],
                      "line": results[args.prop]["violation_line"]}, indent=1))


if __name__ == "__main__":
    sys.exit(main())
