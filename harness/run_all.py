#!/venv/bin/python
"""run_all.py [--tier quick] [--seeds 0,1,2] [--props C01,C09] [-j N]
Runs the registered checks (MANIFEST.json) for several seeds, in parallel, and prints one line per run.
For the maintainers' own use (false-alarm hunting on the unchanged tree); not a registered command."""
from __future__ import annotations
import argparse, json, os, subprocess, sys, time
from concurrent.futures import ThreadPoolExecutor

VERIF = os.path.dirname(os.path.dirname(os.path.abspath(__file__)))


def one(prop, tier, seed):
    t0 = time.time()
    env = dict(os.environ, VERIF_SEED=str(seed))
    p = subprocess.run(["/venv/bin/python", "harness/vcheck.py", prop, "--tier", tier], cwd=VERIF, env=env,
                       stdout=subprocess.PIPE, stderr=subprocess.STDOUT)
    out = p.stdout.decode(errors="replace").strip().splitlines()
    viol = [l for l in out if l.startswith("VIOLATION")]
    return prop, seed, p.returncode, round(time.time() - t0, 1), (viol[0] if viol else (out[-1] if out else ""))


def main():
    ap = argparse.ArgumentParser()
    ap.add_argument("--tier", default="quick")
    ap.add_argument("--seeds", default="0")
    ap.add_argument("--props", default="")
    ap.add_argument("-j", type=int, default=6)
    a = ap.parse_args()
    man = json.load(open(os.path.join(VERIF, "MANIFEST.json")))
    props = [c["property_id"] for c in man["checks"]]
    if a.props:
        props = [p for p in a.props.split(",")]
    seeds = [int(s) for s in a.seeds.split(",")]
    # build once up front so that parallel runs do not race on lake
    subprocess.run(["/venv/bin/python", "harness/setup.py"], cwd=VERIF, stdout=subprocess.DEVNULL)
    bad = 0
    with ThreadPoolExecutor(a.j) as ex:
        futs = [ex.submit(one, p, a.tier, s) for s in seeds for p in props]
        for f in futs:
            prop, seed, rc, dt, line = f.result()
            bad += rc != 0
            print(f"{prop} seed={seed} exit={rc} {dt}s  {line[:160]}")
    print("non-zero exits:", bad)
    return 1 if bad else 0


if __name__ == "__main__":
    sys.exit(main())
