#!/usr/bin/env python3
"""splice_design.py — replace the two generated tables of DESIGN.md (status table of §0, seeded-change table of §11) by the
current output of harness/mkstatus.py.  Maintainers' tool."""
import os, re, subprocess, sys
VERIF = os.path.dirname(os.path.dirname(os.path.abspath(__file__)))
out = subprocess.run([sys.executable, os.path.join(VERIF, "harness", "mkstatus.py")], stdout=subprocess.PIPE, check=True).stdout.decode()
blocks = [b for b in out.split("\n\n") if b.strip().startswith("|")]
status_tbl = next(b for b in blocks if b.lstrip().startswith("| property | theorems"))
seed_tbl = next(b for b in blocks if b.lstrip().startswith("| seed | property | what the change does"))
p = os.path.join(VERIF, "DESIGN.md")
s = open(p, encoding="utf-8").read()


def replace_table(s, header_prefix, new):
    i = s.index(header_prefix)
    j = s.index("\n\n", i)
    return s[:i] + new.strip("\n") + s[j:]


s = replace_table(s, "| property | theorems", status_tbl)
s = replace_table(s, "| seed | property | what the change does", seed_tbl)
open(p, "w", encoding="utf-8").write(s)
print("DESIGN.md tables updated:", status_tbl.count("\n"), "status rows,", seed_tbl.count("\n") - 1, "seeds")
