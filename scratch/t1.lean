import FcProofs.Lemmas.MergeDecomposition
namespace Fc.C06
open Fc.C06.Spec

theorem range3 : List.range 3 = [0, 1, 2] := by decide

theorem pieceExtent_eq (d3 : List (List Nat)) (origin : List Int) (loc3 : List Nat) :
    pieceExtent d3 origin loc3 =
      [axisBegin (origin.getD 0 0) (d3.getD 0 []) (loc3.getD 0 0), axisEnd (origin.getD 0 0) (d3.getD 0 []) (loc3.getD 0 0),
       axisBegin (origin.getD 1 0) (d3.getD 1 []) (loc3.getD 1 0), axisEnd (origin.getD 1 0) (d3.getD 1 []) (loc3.getD 1 0),
       axisBegin (origin.getD 2 0) (d3.getD 2 []) (loc3.getD 2 0), axisEnd (origin.getD 2 0) (d3.getD 2 []) (loc3.getD 2 0)] := by
  simp [pieceExtent, range3, axisBegin, axisEnd]

#check @List.idxOf_getElem
#check @List.getElem_idxOf
#check @List.filter_congr
#check @List.map_congr_left
#check @List.Perm.mem_iff
#check @List.Perm.nodup_iff
#check @List.Nodup.getElem_inj_iff
#check @List.mapM_eq_some
end Fc.C06
